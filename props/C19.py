def _nontrivial(c):
    obs = c.get("observed")
    if isinstance(obs, dict) and "outs" in obs:
        # some subscriber actually received a change, or saw its channel closed
        return any(o.get("vals") or o.get("closed") for o in (obs.get("outs") or []))
    if isinstance(obs, dict) and "ok" in obs:
        return bool(obs["ok"])
    return bool(obs)


SPEC = {
    "id": "C19",
    "level_text": "Theorems (Coq, all histories of Subscribe / Watch / notify / receive / end-of-watch events, all masks, "
                  "interfaces and change values): every subscriber's received sequence (taken ++ still buffered) is exactly "
                  "the in-order subsequence of the changes on its interface that intersect its mask, minus those that arrived "
                  "while its buffer held 8 (C19_iff); nothing is lost when the buffer never fills (C19_exact_when_drained); "
                  "the buffer never exceeds 8 (C19_bounded); notify is a total function that never fails on API-valid "
                  "histories (C19_never_blocks); end of watch -- the watch function returning nil or an error -- closes every earlier subscription "
                  "exactly once, later ones never, Watch returns what the watch function returned, and no send follows a close (C19_close); Watch twice panics; the 127x7x2 single-event table by "
                  "computation; bit assignments, channel capacity and the operstate table are tied to the extracted source facts. "
                  "The model is tied to the real netstate.Watcher by differential runs through the injected watch hook.",
    "level_note": "Trusted: Coq kernel + vm_compute; goextract; the Go driver. Partial: 'subscribing concurrently with notification "
                  "is safe' is the RWMutex, atomic in the model; both tiers run Subscribe concurrently with a watcher that is inside notify practically all the time "
                  "(watchdog), the thorough tier additionally concurrent Subscribe/notify/end under -race (tests). Go map iteration order across different subscribers is not modelled (each subscriber's own channel is).",
    "drivers": [
        {"pkg": "internal/netstate", "test": "TestVerifC19", "timeout": {"quick": 300, "thorough": 900}},
        # the real rtnetlink receive loop on a veth pair (root only; tagged unavailable otherwise)
        {"pkg": "internal/netstate", "test": "TestVerifC19RealOS", "timeout": 300},
        {"pkg": "internal/netstate", "test": "TestVerifC19Race", "timeout": 900, "race": True, "tiers": ["thorough"]},
        # a consumer really running beside notify: only events that do not fit are dropped
        {"pkg": "internal/netstate", "test": "TestVerifC19Parallel", "timeout": 300, "arch386": []},
        # the watcher's own socket overruns (ENOBUFS): Watch returns the error and closes every channel
        {"pkg": "internal/netstate", "test": "TestVerifC19Overrun", "timeout": 300, "arch386": []},
    ],
    "rule": "each case is a script run on a fresh real Watcher with the watch hook injected: (1) every one of the 127 masks x 7 "
            "single changes x interface match/mismatch on its own watcher, and all masks at once per change; (2) slow subscribers: "
            "0..30 matching changes never received before the final receive bursts (one notify call / one call per change / watch "
            "ended first / watch function failed first); the injected watch function returns nil or an error (alternating over table (1), "
            "40% of the ended random histories, failing at once or after events in the corner scripts): Watch must return that error and "
            "every earlier channel must be closed all the same; (3) corner scripts (Watch twice, Watch after end, subscribe after end, zero mask, zero / multi-bit / "
            "out-of-range change values, two channels under one mask); (4) random histories (1-3 interfaces, up to 7 subscribers "
            "subscribing before / during / after the watch, bursts of 0-6 changes per interface, receive bursts of 0-10, 35% with "
            "nobody receiving before the end, 30% never ended); (5) operStateChange on all 256 operstate values and process() on "
            "random rtnetlink message lists; (6) quick tier too, no race detector: the hook delivers batches touching 256 interfaces back to back "
            "while four goroutines Subscribe (two in a tight loop on new interface names, two paced on touched interfaces); every Subscribe must "
            "return, the hook must keep delivering, Watch must end and close every channel within 5 s of real time (a blocked watcher is an "
            "implementation violation; a runtime abort such as 'concurrent map writes' is reported as a failed driver run). Observation is per subscriber channel. Non-trivial: some subscriber received a change "
            "or observed its channel closed (for operstate: a recognised value); distinct by canonical input.",
    "nontrivial": _nontrivial,
    "trusted": ["Go channel semantics (buffered FIFO, non-blocking select send, close) and sync.RWMutex are modelled, not verified",
                "rtnetlink.OperationalState numeric values are the RFC 2863 IF_OPER numbers (checked by the driver on all 256 values)"],
    "assumptions": ["notify is only called by the watch hook while Watch is running (true of osWatch: it calls notify synchronously "
                    "from its receive loop); a hook that leaks notify and calls it after Watch returned would send on closed channels",
                    "interleavings are at the granularity of the mutex-protected sections (Subscribe, notify, the closing loop)"],
    "extra_targets": ["Proofs/Watcher.v"],
}
